// GENERATED ONCE from the 15 initialiser templates of lift/autogen_context.rs (operand variant names replaced by K1, K2):
// (template, arity, mode of the first component, mode of the second component)
pub const TEMPLATES: &[(&str, &str, &str, &str)] = &[
    // e.g. Phi.variable_parent
    ("{ let mut vec = Vec :: new ( ) ; while let Some ( item ) = match ( operands . next ( ) , operands . next ( ) ) { ( Some ( & dr :: Operand :: K1 ( first ) ) , Some ( & dr :: Operand :: K1 ( second ) ) ) => { Some ( ( first , second ) ) } ( None , None ) => None , _ => return Err ( OperandError :: WrongType . into ( ) ) } { vec . push ( item ) ; } vec }", "pairs", "raw", "raw"),
    // e.g. LoopMerge.merge_block
    ("( match operands . next ( ) { Some ( dr :: Operand :: K1 ( value ) ) => Some ( * value ) , Some ( _ ) => return Err ( OperandError :: WrongType . into ( ) ) , None => None } ) . ok_or ( OperandError :: Missing ) ?", "required", "raw", "raw"),
    // e.g. BranchConditional.branch_weights
    ("{ let mut vec = Vec :: new ( ) ; while let Some ( item ) = match operands . next ( ) { Some ( dr :: Operand :: K1 ( value ) ) => Some ( * value ) , Some ( _ ) => return Err ( OperandError :: WrongType . into ( ) ) , None => None } { vec . push ( item ) ; } vec }", "many", "raw", "raw"),
    // e.g. Switch.target
    ("{ let mut vec = Vec :: new ( ) ; while let Some ( item ) = match ( operands . next ( ) , operands . next ( ) ) { ( Some ( & dr :: Operand :: K1 ( first ) ) , Some ( & dr :: Operand :: K2 ( second ) ) ) => Some ( ( first , self . lookup_jump ( second ) ) ) , ( None , None ) => None , _ => return Err ( OperandError :: WrongType . into ( ) ) } { vec . push ( item ) ; } vec }", "pairs", "raw", "jump"),
    // e.g. SourceContinued.continued_source
    ("( match operands . next ( ) { Some ( dr :: Operand :: K1 ( value ) ) => Some ( value . clone ( ) ) , Some ( _ ) => return Err ( OperandError :: WrongType . into ( ) ) , None => None } ) . ok_or ( OperandError :: Missing ) ?", "required", "raw", "raw"),
    // e.g. Source.file
    ("match operands . next ( ) { Some ( dr :: Operand :: K1 ( value ) ) => Some ( * value ) , Some ( _ ) => return Err ( OperandError :: WrongType . into ( ) ) , None => None }", "optional", "raw", "raw"),
    // e.g. Source.source
    ("match operands . next ( ) { Some ( dr :: Operand :: K1 ( value ) ) => Some ( value . clone ( ) ) , Some ( _ ) => return Err ( OperandError :: WrongType . into ( ) ) , None => None }", "optional", "raw", "raw"),
    // e.g. MemberName.ty
    ("( match operands . next ( ) { Some ( dr :: Operand :: K1 ( value ) ) => Some ( self . types . lookup_token ( * value ) ) , Some ( _ ) => return Err ( OperandError :: WrongType . into ( ) ) , None => None } ) . ok_or ( OperandError :: Missing ) ?", "required", "type_token", "raw"),
    // e.g. GroupMemberDecorate.targets
    ("{ let mut vec = Vec :: new ( ) ; while let Some ( item ) = match ( operands . next ( ) , operands . next ( ) ) { ( Some ( & dr :: Operand :: K1 ( first ) ) , Some ( & dr :: Operand :: K2 ( second ) ) ) => Some ( ( self . lookup_jump ( first ) , second ) ) , ( None , None ) => None , _ => return Err ( OperandError :: WrongType . into ( ) ) } { vec . push ( item ) ; } vec }", "pairs", "jump", "raw"),
    // e.g. ImageSampleImplicitLod.image_operands
    ("match operands . next ( ) { Some ( dr :: Operand :: K1 ( value ) ) => { let operands = operands . map ( | op | match * op { dr :: Operand :: K2 ( second ) => Ok ( second ) , _ => Err ( OperandError :: WrongType ) } ) . collect :: < Result < Vec < _ > , _ > > ( ) ? ; Some ( ( * value , operands ) ) } Some ( _ ) => return Err ( OperandError :: WrongType . into ( ) ) , None => None }", "optional", "rest_ids", "raw"),
    // e.g. ImageSampleExplicitLod.image_operands
    ("( match operands . next ( ) { Some ( dr :: Operand :: K1 ( value ) ) => { let operands = operands . map ( | op | match * op { dr :: Operand :: K2 ( second ) => Ok ( second ) , _ => Err ( OperandError :: WrongType ) } ) . collect :: < Result < Vec < _ > , _ > > ( ) ? ; Some ( ( * value , operands ) ) } Some ( _ ) => return Err ( OperandError :: WrongType . into ( ) ) , None => None } ) . ok_or ( OperandError :: Missing ) ?", "required", "rest_ids", "raw"),
    // e.g. UntypedVariableKHR.data_type
    ("match operands . next ( ) { Some ( dr :: Operand :: K1 ( value ) ) => Some ( self . types . lookup_token ( * value ) ) , Some ( _ ) => return Err ( OperandError :: WrongType . into ( ) ) , None => None }", "optional", "type_token", "raw"),
    // e.g. Array.length
    ("( match operands . next ( ) { Some ( dr :: Operand :: K1 ( value ) ) => Some ( self . constants . lookup_token ( * value ) ) , Some ( _ ) => return Err ( OperandError :: WrongType . into ( ) ) , None => None } ) . ok_or ( OperandError :: Missing ) ?", "required", "const_token", "raw"),
    // e.g. Struct.member_0_type_member_1_type
    ("{ let mut vec = Vec :: new ( ) ; while let Some ( item ) = match operands . next ( ) { Some ( dr :: Operand :: K1 ( value ) ) => { Some ( StructMember :: new ( self . types . lookup_token ( * value ) ) ) } Some ( _ ) => return Err ( OperandError :: WrongType . into ( ) ) , None => None } { vec . push ( item ) ; } vec }", "many", "type_token", "raw"),
    // e.g. Function.parameter_0_type_parameter_1_type
    ("{ let mut vec = Vec :: new ( ) ; while let Some ( item ) = match operands . next ( ) { Some ( dr :: Operand :: K1 ( value ) ) => Some ( self . types . lookup_token ( * value ) ) , Some ( _ ) => return Err ( OperandError :: WrongType . into ( ) ) , None => None } { vec . push ( item ) ; } vec }", "many", "type_token", "raw"),
];
