//! dr/autogen_operand.rs: the reflection functions of `dr::Operand`
//!   id_ref_any / id_ref_any_mut        -> the variants that carry an id
//!   required_capabilities / _extensions -> per Operand variant: mask GROUPS (`intersects`) or enum ARMS
//!   additional_operands                 -> per Operand variant: mask GROUPS (`contains`, per bit) or enum ARMS
//!
//! Every statement / arm must equal one fixed token template (after removal of
//! trailing commas); anything else is a translation failure.
use crate::common::*;
use crate::Ctx;
use serde_json::{json, Value};

const FILE: &str = "rspirv/dr/autogen_operand.rs";

/// `, )` `, ]` `, }` -> `)` `]` `}` (rustfmt's trailing commas)
fn norm(s: &str) -> String {
    let mut t = format!("{} ", s.trim());
    loop {
        let u = t.replace(", ) ", ") ").replace(", ] ", "] ").replace(", } ", "} ");
        if u == t {
            break;
        }
        t = u;
    }
    t.trim().to_string()
}

/// splits at top-level `sep` tokens (sep is a single token such as "," or "|")
fn split_top(s: &str, sep: &str) -> Vec<String> {
    let mut out = vec![];
    let mut depth = 0i32;
    let mut cur = String::new();
    for tok in s.split_whitespace() {
        match tok {
            "(" | "[" | "{" => depth += 1,
            ")" | "]" | "}" => depth -= 1,
            _ => {}
        }
        if tok == sep && depth == 0 {
            out.push(cur.trim().to_string());
            cur = String::new();
        } else {
            cur.push_str(tok);
            cur.push(' ');
        }
    }
    if !cur.trim().is_empty() {
        out.push(cur.trim().to_string());
    }
    out
}

fn is_ident(s: &str) -> bool {
    !s.is_empty() && s.chars().all(|c| c.is_ascii_alphanumeric() || c == '_') && !s.chars().next().unwrap().is_ascii_digit()
}

/// `s :: <kind> :: NAME` -> NAME
fn value_name(tok: &str, kind: &str) -> Option<String> {
    let pre = format!("s :: {} :: ", kind);
    let n = tok.trim().strip_prefix(&pre)?;
    if is_ident(n) {
        Some(n.to_string())
    } else {
        None
    }
}

#[derive(Clone, Copy, PartialEq)]
enum Which {
    Caps,
    Exts,
    Params,
}

/// one item of a `vec![..]` / `&[..]` / `[..]` list
fn item(tok: &str, which: Which) -> Option<Value> {
    let t = tok.trim();
    match which {
        Which::Caps => {
            let n = t.strip_prefix("spirv :: Capability :: ")?;
            if is_ident(n) {
                Some(json!(n))
            } else {
                None
            }
        }
        Which::Exts => {
            // a plain string literal token
            let n = t.strip_prefix('"')?.strip_suffix('"')?;
            if n.chars().all(|c| c.is_ascii_alphanumeric() || c == '_') && !n.is_empty() {
                Some(json!(n))
            } else {
                None
            }
        }
        Which::Params => {
            let r = t.strip_prefix("crate :: grammar :: LogicalOperand { kind : crate :: grammar :: OperandKind :: ")?;
            let (k, r) = r.split_once(" , quantifier : crate :: grammar :: OperandQuantifier :: ")?;
            let q = r.strip_suffix(" }")?;
            if is_ident(k) && ["One", "ZeroOrOne", "ZeroOrMore"].contains(&q) {
                Some(json!([k, q]))
            } else {
                None
            }
        }
    }
}

fn items(list: &str, which: Which) -> Option<Vec<Value>> {
    let mut out = vec![];
    for t in split_top(list, ",") {
        out.push(item(&t, which)?);
    }
    Some(out)
}

/// `prefix A mid B suffix` -> (A, B)
fn two_holes<'a>(s: &'a str, prefix: &str, mid: &str, suffix: &str) -> Option<(&'a str, &'a str)> {
    let r = s.strip_prefix(prefix)?;
    let r = r.strip_suffix(suffix)?;
    let (a, b) = r.split_once(mid)?;
    if b.contains(mid) {
        return None;
    }
    Some((a, b))
}

/// mask body: `{ let mut result = vec![]; <group statements> result }`
fn mask_body(cx: &mut Ctx, fname: &str, kind: &str, blk: &syn::Block, which: Which) -> Option<Value> {
    let n = blk.stmts.len();
    if n < 2 {
        cx.fail(format!("{}: opreflect {} {}: mask block too short", FILE, fname, kind));
        return None;
    }
    if norm(&tokens_string(&blk.stmts[0])) != "let mut result = vec ! [ ] ;" || norm(&tokens_string(&blk.stmts[n - 1])) != "result" {
        cx.fail(format!("{}: opreflect {} {}: mask block does not start with `let mut result = vec![];` and end with `result`", FILE, fname, kind));
        return None;
    }
    let mut groups = vec![];
    for (i, st) in blk.stmts[1..n - 1].iter().enumerate() {
        let s = norm(&tokens_string(st));
        let parsed = match which {
            Which::Caps | Which::Exts => two_holes(&s, "if v . intersects ( ", " ) { result . extend_from_slice ( & [ ", " ] ) } ;").map(|(b, it)| (split_top(b, "|"), it)),
            Which::Params => two_holes(
                &s,
                "result . extend ( [ ",
                " ] . iter ( ) . filter ( | arg | v . contains ( * * arg ) ) . flat_map ( | _ | { [ ",
                " ] . iter ( ) . cloned ( ) } ) ) ;",
            )
            .map(|(b, it)| (split_top(b, ","), it)),
        };
        let (bits, its) = match parsed {
            Some(x) => x,
            None => {
                cx.fail(format!("{}: opreflect {} {}: statement {} does not match the group template: `{}`", FILE, fname, kind, i + 1, s.chars().take(160).collect::<String>()));
                return None;
            }
        };
        let mut names = vec![];
        for b in &bits {
            match value_name(b, kind) {
                Some(nm) => names.push(nm),
                None => {
                    cx.fail(format!("{}: opreflect {} {}: statement {}: `{}` is not a constant of the mask", FILE, fname, kind, i + 1, b));
                    return None;
                }
            }
        }
        let its = match items(its, which) {
            Some(v) if !v.is_empty() && !names.is_empty() => v,
            _ => {
                cx.fail(format!("{}: opreflect {} {}: statement {}: unrecognised item list `{}`", FILE, fname, kind, i + 1, its.chars().take(160).collect::<String>()));
                return None;
            }
        };
        groups.push(json!({"bits": names, "items": its}));
    }
    Some(json!({"kind": kind, "form": "mask", "groups": groups}))
}

/// `vec![items]` or `{ vec![items] }`
fn vec_items(e: &syn::Expr, which: Which) -> Option<Vec<Value>> {
    match e {
        syn::Expr::Macro(m) => {
            if tokens_string(&m.mac.path).trim() != "vec" || !matches!(m.mac.delimiter, syn::MacroDelimiter::Bracket(_)) || !m.attrs.is_empty() {
                return None;
            }
            let inner = norm(&norm_tokens(m.mac.tokens.clone()));
            if inner.is_empty() {
                return Some(vec![]);
            }
            items(&inner, which)
        }
        syn::Expr::Block(b) if b.attrs.is_empty() && b.label.is_none() && b.block.stmts.len() == 1 => match &b.block.stmts[0] {
            syn::Stmt::Expr(inner @ syn::Expr::Macro(_), None) => vec_items(inner, which),
            _ => None,
        },
        _ => None,
    }
}

/// enum body: `match v { s::K::A | s::K::B => vec![..], .., [_ => vec![]] }`
fn enum_body(cx: &mut Ctx, fname: &str, kind: &str, m: &syn::ExprMatch, which: Which) -> Option<Value> {
    if norm(&tokens_string(&m.expr)) != "v" {
        cx.fail(format!("{}: opreflect {} {}: inner match is not on `v`", FILE, fname, kind));
        return None;
    }
    let mut arms = vec![];
    let mut fallback = false;
    let n = m.arms.len();
    for (i, arm) in m.arms.iter().enumerate() {
        if arm.guard.is_some() || !arm.attrs.is_empty() {
            cx.fail(format!("{}: opreflect {} {}: arm {} has a guard or attribute", FILE, fname, kind, i));
            return None;
        }
        let its = match vec_items(&arm.body, which) {
            Some(v) => v,
            None => {
                cx.fail(format!("{}: opreflect {} {}: arm {} body is not `vec![items]`: `{}`", FILE, fname, kind, i, norm(&tokens_string(&arm.body)).chars().take(160).collect::<String>()));
                return None;
            }
        };
        let pat = norm(&tokens_string(&arm.pat));
        if pat == "_" {
            if i != n - 1 || !its.is_empty() {
                cx.fail(format!("{}: opreflect {} {}: `_` arm is not the last arm or not `vec![]`", FILE, fname, kind));
                return None;
            }
            fallback = true;
            continue;
        }
        let mut names = vec![];
        for p in split_top(&pat, "|") {
            match value_name(&p, kind) {
                Some(nm) => names.push(nm),
                None => {
                    cx.fail(format!("{}: opreflect {} {}: arm {} pattern `{}` is not an enumerant of the kind", FILE, fname, kind, i, p));
                    return None;
                }
            }
        }
        if names.is_empty() {
            cx.fail(format!("{}: opreflect {} {}: arm {} has no pattern", FILE, fname, kind, i));
            return None;
        }
        arms.push(json!({"values": names, "items": its}));
    }
    Some(json!({"kind": kind, "form": "enum", "arms": arms, "fallback": fallback}))
}

/// the body of required_capabilities / required_extensions / additional_operands
fn reflect_fn(cx: &mut Ctx, f: &syn::ImplItemFn, which: Which) -> Value {
    let fname = f.sig.ident.to_string();
    let sig = norm(&tokens_string(&f.sig));
    let want_sig = match which {
        Which::Caps => "fn required_capabilities ( & self ) -> Vec < spirv :: Capability >",
        Which::Exts => "fn required_extensions ( & self ) -> Vec < & 'static str >",
        Which::Params => "fn additional_operands ( & self ) -> Vec < crate :: grammar :: LogicalOperand >",
    };
    if sig != want_sig {
        cx.fail(format!("{}: opreflect {}: signature `{}`", FILE, fname, sig));
        return Value::Null;
    }
    let st = &f.block.stmts;
    let m = match (st.len(), st.first().map(|s| norm(&tokens_string(s))), st.get(1)) {
        (2, Some(u), Some(syn::Stmt::Expr(syn::Expr::Match(m), None))) if u == "use spirv as s ;" && norm(&tokens_string(&m.expr)) == "self" && m.attrs.is_empty() => m,
        _ => {
            cx.fail(format!("{}: opreflect {}: body is not `use spirv as s; match self {{ .. }}`", FILE, fname));
            return Value::Null;
        }
    };
    let mut kinds = vec![];
    let mut fallthrough = false;
    let n = m.arms.len();
    for (i, arm) in m.arms.iter().enumerate() {
        let pat = norm(&tokens_string(&arm.pat));
        if arm.guard.is_some() || !arm.attrs.is_empty() {
            cx.fail(format!("{}: opreflect {}: arm `{}` has a guard or attribute", FILE, fname, pat));
            continue;
        }
        if pat == "_" {
            if i == n - 1 && norm(&tokens_string(&arm.body)) == "vec ! [ ]" {
                fallthrough = true;
            } else {
                cx.fail(format!("{}: opreflect {}: `_` arm is not the last arm or not `vec![]`", FILE, fname));
            }
            continue;
        }
        let kind = match pat.strip_prefix("Self :: ").and_then(|r| r.strip_suffix(" ( v )")) {
            Some(k) if is_ident(k) => k.to_string(),
            _ => {
                cx.fail(format!("{}: opreflect {}: arm pattern `{}` is not `Self::K(v)`", FILE, fname, pat));
                continue;
            }
        };
        let r = match &*arm.body {
            syn::Expr::Block(b) if b.attrs.is_empty() && b.label.is_none() => mask_body(cx, &fname, &kind, &b.block, which),
            syn::Expr::Match(im) if im.attrs.is_empty() => enum_body(cx, &fname, &kind, im, which),
            _ => {
                cx.fail(format!("{}: opreflect {} {}: arm body is neither a mask block nor a match on the value", FILE, fname, kind));
                None
            }
        };
        match r {
            Some(v) => kinds.push(v),
            None => kinds.push(json!({"kind": kind, "form": "unrecognised"})),
        }
    }
    json!({"kinds": kinds, "fallthrough": fallthrough})
}

/// id_ref_any / id_ref_any_mut: `match <scrutinee> { Self::A(v) | Self::B(v) .. => Some(v), _ => None }`
fn id_fn(cx: &mut Ctx, f: &syn::ImplItemFn, mutable: bool) -> Value {
    let fname = f.sig.ident.to_string();
    let sig = norm(&tokens_string(&f.sig));
    let (want_sig, want_scrut) = if mutable {
        ("fn id_ref_any_mut ( & mut self ) -> Option < & mut spirv :: Word >", "self")
    } else {
        ("fn id_ref_any ( & self ) -> Option < spirv :: Word >", "* self")
    };
    if sig != want_sig {
        cx.fail(format!("{}: opreflect {}: signature `{}`", FILE, fname, sig));
        return Value::Null;
    }
    let m = match (f.block.stmts.len(), f.block.stmts.first()) {
        (1, Some(syn::Stmt::Expr(syn::Expr::Match(m), None))) if norm(&tokens_string(&m.expr)) == want_scrut && m.arms.len() == 2 => m,
        _ => {
            cx.fail(format!("{}: opreflect {}: body is not a two-arm match on `{}`", FILE, fname, want_scrut));
            return Value::Null;
        }
    };
    let a0 = &m.arms[0];
    let a1 = &m.arms[1];
    if a0.guard.is_some() || a1.guard.is_some() || norm(&tokens_string(&a0.body)) != "Some ( v )" || norm(&tokens_string(&a1.pat)) != "_" || norm(&tokens_string(&a1.body)) != "None" {
        cx.fail(format!("{}: opreflect {}: arms are not `.. => Some(v), _ => None`", FILE, fname));
        return Value::Null;
    }
    let mut variants = vec![];
    for p in split_top(&norm(&tokens_string(&a0.pat)), "|") {
        match p.strip_prefix("Self :: ").and_then(|r| r.strip_suffix(" ( v )")) {
            Some(k) if is_ident(k) => variants.push(k.to_string()),
            _ => {
                cx.fail(format!("{}: opreflect {}: pattern `{}` is not `Self::K(v)`", FILE, fname, p));
                return Value::Null;
            }
        }
    }
    json!({"variants": variants})
}

pub fn extract(cx: &mut Ctx) -> Value {
    let file = match cx.parse(FILE) {
        Some(f) => f,
        None => return Value::Null,
    };
    let mut out = serde_json::Map::new();
    let wanted = ["id_ref_any", "id_ref_any_mut", "required_capabilities", "required_extensions", "additional_operands"];
    for item in &file.items {
        if let syn::Item::Impl(imp) = item {
            if imp.trait_.is_some() || norm(&tokens_string(&imp.self_ty)) != "Operand" {
                continue;
            }
            for it in &imp.items {
                if let syn::ImplItem::Fn(f) = it {
                    let fname = f.sig.ident.to_string();
                    if !wanted.contains(&fname.as_str()) {
                        continue;
                    }
                    if out.contains_key(&fname) {
                        cx.fail(format!("{}: opreflect {}: defined twice", FILE, fname));
                        continue;
                    }
                    let v = match fname.as_str() {
                        "id_ref_any" => id_fn(cx, f, false),
                        "id_ref_any_mut" => id_fn(cx, f, true),
                        "required_capabilities" => reflect_fn(cx, f, Which::Caps),
                        "required_extensions" => reflect_fn(cx, f, Which::Exts),
                        _ => reflect_fn(cx, f, Which::Params),
                    };
                    out.insert(fname, v);
                }
            }
        }
    }
    for w in wanted {
        if !out.contains_key(w) {
            cx.fail(format!("{}: opreflect {}: function not found in `impl Operand`", FILE, w));
        }
    }
    Value::Object(out)
}
