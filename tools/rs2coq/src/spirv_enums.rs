//! spirv/autogen_spirv.rs: bitflags, value enums, from_u32 arms, aliases, FromStr.
use crate::common::*;
use crate::Ctx;
use proc_macro2::{TokenStream, TokenTree};
use serde_json::{json, Value};
use std::collections::BTreeMap;

const FILE: &str = "spirv/autogen_spirv.rs";

fn parse_bitflags(cx: &mut Ctx, ts: TokenStream) -> Option<Value> {
    // ... pub struct NAME : u32 { (attrs)* const A = 1u32 ; ... }
    let toks: Vec<TokenTree> = ts.into_iter().collect();
    let mut i = 0;
    while i < toks.len() {
        if let TokenTree::Ident(id) = &toks[i] {
            if id == "struct" {
                break;
            }
        }
        i += 1;
    }
    if i + 4 >= toks.len() {
        cx.fail(format!("{}: bitflags! without struct", FILE));
        return None;
    }
    let name = toks[i + 1].to_string();
    let colon_ok = matches!(&toks[i + 2], TokenTree::Punct(p) if p.as_char()==':');
    let ty = toks[i + 3].to_string();
    if !colon_ok || ty != "u32" {
        cx.fail(format!("{}: bitflags {} not `: u32`", FILE, name));
        return None;
    }
    let body = match &toks[i + 4] {
        TokenTree::Group(g) if g.delimiter() == proc_macro2::Delimiter::Brace => g.stream(),
        _ => {
            cx.fail(format!("{}: bitflags {} has no body", FILE, name));
            return None;
        }
    };
    if i + 5 != toks.len() {
        cx.fail(format!("{}: bitflags {} trailing tokens", FILE, name));
    }
    let b: Vec<TokenTree> = body.into_iter().collect();
    let mut consts = vec![];
    let mut j = 0;
    while j < b.len() {
        match &b[j] {
            TokenTree::Punct(p) if p.as_char() == '#' => {
                j += 2; // attribute
            }
            TokenTree::Ident(id) if id == "const" => {
                // const NAME = LIT ;
                if j + 4 >= b.len() + 0 && j + 4 > b.len() {
                    cx.fail(format!("{}: bitflags {} truncated const", FILE, name));
                    return None;
                }
                let cname = b[j + 1].to_string();
                let eq_ok = matches!(&b[j + 2], TokenTree::Punct(p) if p.as_char()=='=');
                let lit = b[j + 3].to_string();
                let semi_ok = matches!(&b[j + 4], TokenTree::Punct(p) if p.as_char()==';');
                let val = syn::parse_str::<syn::LitInt>(&lit)
                    .ok()
                    .and_then(|l| l.base10_parse::<u64>().ok());
                match (eq_ok, semi_ok, val) {
                    (true, true, Some(v)) => consts.push(json!([cname, v])),
                    _ => {
                        cx.fail(format!(
                            "{}: bitflags {} const {} has unexpected shape",
                            FILE, name, cname
                        ));
                        return None;
                    }
                }
                j += 5;
            }
            other => {
                cx.fail(format!(
                    "{}: bitflags {} unexpected token {}",
                    FILE, name, other
                ));
                return None;
            }
        }
    }
    Some(json!({"name": name, "consts": consts}))
}

struct EnumInfo {
    variants: Vec<(String, u64)>,
    arms: Vec<Value>,
    aliases: Vec<(String, String)>,
    fromstr: Option<Vec<(String, String)>>,
    has_from_u32: bool,
    order: usize,
}

fn self_variant(e: &syn::Expr, ename: &str) -> Option<String> {
    if let syn::Expr::Block(b) = e {
        if b.attrs.is_empty() && b.label.is_none() {
            if let [syn::Stmt::Expr(inner, None)] = b.block.stmts.as_slice() {
                return self_variant(inner, ename);
            }
        }
        return None;
    }
    let p = expr_path(e)?;
    if p.len() == 2 && (p[0] == "Self" || p[0] == ename) {
        Some(p[1].clone())
    } else {
        None
    }
}

/// `unsafe { core::mem::transmute::<u32, E>(n) }`
fn is_transmute_of(e: &syn::Expr, ename: &str, scrut: &str) -> bool {
    let s = tokens_string(e);
    let want = format!(
        "unsafe {{ core :: mem :: transmute :: < u32 , {} > ( {} ) }} ",
        ename, scrut
    );
    s == want
}

fn from_u32_arms(cx: &mut Ctx, ename: &str, f: &syn::ImplItemFn) -> Option<Vec<Value>> {
    // signature: pub fn from_u32(n: u32) -> Option<Self>
    let sig = tokens_string(&f.sig);
    if sig != "fn from_u32 ( n : u32 ) -> Option < Self > " {
        cx.fail(format!("{}: {}::from_u32 signature `{}`", FILE, ename, sig));
        return None;
    }
    // body: Some(match n { arms })
    if f.block.stmts.len() != 1 {
        cx.fail(format!("{}: {}::from_u32 body not one expr", FILE, ename));
        return None;
    }
    let e = match &f.block.stmts[0] {
        syn::Stmt::Expr(e, None) => e,
        _ => {
            cx.fail(format!("{}: {}::from_u32 body shape", FILE, ename));
            return None;
        }
    };
    let m = match e {
        syn::Expr::Call(c)
            if expr_path(&c.func).map(|p| p == vec!["Some".to_string()]) == Some(true)
                && c.args.len() == 1 =>
        {
            match &c.args[0] {
                syn::Expr::Match(m) => m,
                _ => {
                    cx.fail(format!("{}: {}::from_u32 not Some(match)", FILE, ename));
                    return None;
                }
            }
        }
        _ => {
            cx.fail(format!("{}: {}::from_u32 not Some(..)", FILE, ename));
            return None;
        }
    };
    if expr_path(&m.expr) != Some(vec!["n".to_string()]) {
        cx.fail(format!("{}: {}::from_u32 scrutinee", FILE, ename));
        return None;
    }
    let mut arms = vec![];
    let n = m.arms.len();
    for (k, arm) in m.arms.iter().enumerate() {
        if arm.guard.is_some() {
            cx.fail(format!("{}: {}::from_u32 guarded arm", FILE, ename));
            return None;
        }
        match &arm.pat {
            syn::Pat::Wild(_) => {
                if k != n - 1 || tokens_string(&arm.body) != "return None " {
                    cx.fail(format!("{}: {}::from_u32 wildcard arm shape", FILE, ename));
                    return None;
                }
            }
            syn::Pat::Range(r) => {
                let lo = r.start.as_ref().and_then(|e| expr_u64(e));
                let hi = r.end.as_ref().and_then(|e| expr_u64(e));
                let closed = matches!(r.limits, syn::RangeLimits::Closed(_));
                match (lo, hi, closed) {
                    (Some(lo), Some(hi), true) if is_transmute_of(&arm.body, ename, "n") => {
                        arms.push(json!({"lo": lo, "hi": hi, "to": Value::Null}))
                    }
                    _ => {
                        cx.fail(format!(
                            "{}: {}::from_u32 range arm `{}`",
                            FILE,
                            ename,
                            tokens_string(arm)
                        ));
                        return None;
                    }
                }
            }
            syn::Pat::Lit(l) => {
                let v = lit_u64(&l.lit);
                let littxt = tokens_string(&l.lit);
                if let (Some(v), true) = (
                    v,
                    is_transmute_of(&arm.body, ename, "n")
                        || is_transmute_of(&arm.body, ename, littxt.trim()),
                ) {
                    arms.push(json!({"lo": v, "hi": v, "to": Value::Null}));
                } else if let (Some(v), Some(var)) = (v, self_variant(&arm.body, ename)) {
                    arms.push(json!({"lo": v, "hi": v, "to": var}));
                } else {
                    cx.fail(format!(
                        "{}: {}::from_u32 literal arm `{}`",
                        FILE,
                        ename,
                        tokens_string(arm)
                    ));
                    return None;
                }
            }
            _ => {
                cx.fail(format!(
                    "{}: {}::from_u32 arm pattern `{}`",
                    FILE,
                    ename,
                    tokens_string(&arm.pat)
                ));
                return None;
            }
        }
    }
    Some(arms)
}

fn fromstr_arms(cx: &mut Ctx, ename: &str, imp: &syn::ItemImpl) -> Option<Vec<(String, String)>> {
    let mut res = None;
    for it in &imp.items {
        if let syn::ImplItem::Fn(f) = it {
            if f.sig.ident != "from_str" {
                cx.fail(format!("{}: FromStr for {} extra fn", FILE, ename));
                return None;
            }
            let e = match f.block.stmts.as_slice() {
                [syn::Stmt::Expr(e, None)] => e,
                _ => {
                    cx.fail(format!("{}: FromStr for {} body", FILE, ename));
                    return None;
                }
            };
            let m = match e {
                syn::Expr::Call(c)
                    if expr_path(&c.func).map(|p| p == vec!["Ok".to_string()]) == Some(true)
                        && c.args.len() == 1 =>
                {
                    match &c.args[0] {
                        syn::Expr::Match(m) => m,
                        _ => {
                            cx.fail(format!("{}: FromStr for {} not Ok(match)", FILE, ename));
                            return None;
                        }
                    }
                }
                _ => {
                    cx.fail(format!("{}: FromStr for {} not Ok(..)", FILE, ename));
                    return None;
                }
            };
            if expr_path(&m.expr) != Some(vec!["s".to_string()]) {
                cx.fail(format!("{}: FromStr for {} scrutinee", FILE, ename));
                return None;
            }
            let mut arms = vec![];
            let n = m.arms.len();
            for (k, arm) in m.arms.iter().enumerate() {
                if arm.guard.is_some() {
                    cx.fail(format!("{}: FromStr for {} guard", FILE, ename));
                    return None;
                }
                match &arm.pat {
                    syn::Pat::Wild(_) => {
                        if k != n - 1 || tokens_string(&arm.body) != "return Err ( ( ) ) " {
                            cx.fail(format!("{}: FromStr for {} wildcard", FILE, ename));
                            return None;
                        }
                    }
                    syn::Pat::Lit(l) => {
                        let s = match &l.lit {
                            syn::Lit::Str(s) => s.value(),
                            _ => {
                                cx.fail(format!("{}: FromStr for {} non-str arm", FILE, ename));
                                return None;
                            }
                        };
                        match self_variant(&arm.body, ename) {
                            Some(v) => arms.push((s, v)),
                            None => {
                                cx.fail(format!(
                                    "{}: FromStr for {} arm body `{}`",
                                    FILE,
                                    ename,
                                    tokens_string(&arm.body)
                                ));
                                return None;
                            }
                        }
                    }
                    _ => {
                        cx.fail(format!("{}: FromStr for {} arm pattern", FILE, ename));
                        return None;
                    }
                }
            }
            res = Some(arms);
        }
    }
    res
}

pub fn extract(cx: &mut Ctx) -> Value {
    let file = match cx.parse(FILE) {
        Some(f) => f,
        None => return Value::Null,
    };
    let mut flags = vec![];
    let mut enums: BTreeMap<String, EnumInfo> = BTreeMap::new();
    let mut consts = serde_json::Map::new();
    let mut order = 0usize;
    for item in &file.items {
        match item {
            syn::Item::Macro(m) => {
                if last(&path_segments(&m.mac.path)) == "bitflags" {
                    if let Some(v) = parse_bitflags(cx, m.mac.tokens.clone()) {
                        flags.push(v);
                    }
                } else {
                    cx.fail(format!("{}: unexpected macro {}", FILE, tokens_string(&m.mac.path)));
                }
            }
            syn::Item::Enum(e) => {
                let name = e.ident.to_string();
                let repr_ok = e
                    .attrs
                    .iter()
                    .any(|a| tokens_string(a) == "# [ repr ( u32 ) ] ");
                if !repr_ok {
                    cx.fail(format!("{}: enum {} lacks #[repr(u32)]", FILE, name));
                }
                let mut vs = vec![];
                for v in &e.variants {
                    let d = v.discriminant.as_ref().and_then(|(_, e)| expr_u64(e));
                    match (d, &v.fields) {
                        (Some(d), syn::Fields::Unit) => vs.push((v.ident.to_string(), d)),
                        _ => cx.fail(format!(
                            "{}: enum {} variant {} shape",
                            FILE, name, v.ident
                        )),
                    }
                }
                enums.insert(
                    name,
                    EnumInfo {
                        variants: vs,
                        arms: vec![],
                        aliases: vec![],
                        fromstr: None,
                        has_from_u32: false,
                        order,
                    },
                );
                order += 1;
            }
            syn::Item::Impl(imp) => {
                let tyname = match &*imp.self_ty {
                    syn::Type::Path(p) => last(&path_segments(&p.path)),
                    _ => String::new(),
                };
                if !enums.contains_key(&tyname) {
                    cx.fail(format!("{}: impl for unknown type {}", FILE, tyname));
                    continue;
                }
                if let Some((_, tr, _)) = &imp.trait_ {
                    let trs = path_segments(tr).join("::");
                    if trs == "core::str::FromStr" {
                        let a = fromstr_arms(cx, &tyname, imp);
                        enums.get_mut(&tyname).unwrap().fromstr = a;
                    } else {
                        cx.fail(format!("{}: unexpected trait impl {} for {}", FILE, trs, tyname));
                    }
                    continue;
                }
                for it in &imp.items {
                    match it {
                        syn::ImplItem::Fn(f) if f.sig.ident == "from_u32" => {
                            if let Some(a) = from_u32_arms(cx, &tyname, f) {
                                let ei = enums.get_mut(&tyname).unwrap();
                                ei.arms = a;
                                ei.has_from_u32 = true;
                            }
                        }
                        syn::ImplItem::Const(c) => {
                            let tgt = self_variant(&c.expr, &tyname);
                            let ty = tokens_string(&c.ty);
                            match tgt {
                                Some(t) if ty == "Self " || ty == format!("{} ", tyname) => enums
                                    .get_mut(&tyname)
                                    .unwrap()
                                    .aliases
                                    .push((c.ident.to_string(), t)),
                                _ => cx.fail(format!(
                                    "{}: {} const {} shape",
                                    FILE, tyname, c.ident
                                )),
                            }
                        }
                        other => cx.fail(format!(
                            "{}: impl {} unexpected item `{}`",
                            FILE,
                            tyname,
                            tokens_string(other).chars().take(60).collect::<String>()
                        )),
                    }
                }
            }
            syn::Item::Type(t) => {
                consts.insert(format!("type:{}", t.ident), json!(tokens_string(&t.ty).trim()));
            }
            syn::Item::Const(c) => {
                let v = expr_u64(&c.expr);
                match v {
                    Some(v) => {
                        consts.insert(c.ident.to_string(), json!(v));
                    }
                    None => cx.fail(format!("{}: const {} not a literal", FILE, c.ident)),
                }
            }
            other => cx.fail(format!(
                "{}: unexpected item `{}`",
                FILE,
                tokens_string(other).chars().take(60).collect::<String>()
            )),
        }
    }
    let mut ev: Vec<(usize, Value)> = enums
        .into_iter()
        .map(|(name, ei)| {
            if !ei.has_from_u32 {
                cx.fail(format!("{}: enum {} has no from_u32", FILE, name));
            }
            (
                ei.order,
                json!({
                    "name": name,
                    "variants": ei.variants.iter().map(|(n,v)| json!([n,v])).collect::<Vec<_>>(),
                    "arms": ei.arms,
                    "aliases": ei.aliases.iter().map(|(a,t)| json!([a,t])).collect::<Vec<_>>(),
                    "fromstr": ei.fromstr.map(|v| v.iter().map(|(s,t)| json!([s,t])).collect::<Vec<_>>()),
                }),
            )
        })
        .collect();
    ev.sort_by_key(|x| x.0);
    json!({
        "flags": flags,
        "enums": ev.into_iter().map(|x| x.1).collect::<Vec<_>>(),
        "consts": consts,
    })
}
