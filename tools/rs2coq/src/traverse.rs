//! dr/constructs.rs traversals and binary/assemble.rs `assemble_into` bodies
//! as traversal expressions:
//!   {"field": F} | {"chain": [a, b]} | {"flat_map": [F, body]} | {"call": fn}
use crate::common::*;
use crate::Ctx;
use serde_json::{json, Value};

fn strip_ref(e: &syn::Expr) -> &syn::Expr {
    match e {
        syn::Expr::Reference(r) => strip_ref(&r.expr),
        syn::Expr::Paren(p) => strip_ref(&p.expr),
        _ => e,
    }
}

/// `root.F` -> Some(F)
fn root_field(e: &syn::Expr, root: &str) -> Option<String> {
    if let syn::Expr::Field(f) = strip_ref(e) {
        if expr_path(&f.base) == Some(vec![root.to_string()]) {
            if let syn::Member::Named(i) = &f.member {
                return Some(i.to_string());
            }
        }
    }
    None
}

pub fn iter_expr(e: &syn::Expr, root: &str) -> Option<Value> {
    let e = strip_ref(e);
    if let Some(f) = root_field(e, root) {
        return Some(json!({"field": f}));
    }
    if let syn::Expr::MethodCall(m) = e {
        let name = m.method.to_string();
        match name.as_str() {
            "iter" | "iter_mut" if m.args.is_empty() => {
                return root_field(&m.receiver, root).map(|f| json!({"field": f}));
            }
            "chain" if m.args.len() == 1 => {
                let a = iter_expr(&m.receiver, root)?;
                let b = iter_expr(&m.args[0], root)?;
                return Some(json!({"chain": [a, b]}));
            }
            "flat_map" if m.args.len() == 1 => {
                // receiver: root.F.iter()/iter_mut()
                let recv = iter_expr(&m.receiver, root)?;
                let f = recv.get("field")?.as_str()?.to_string();
                if let syn::Expr::Closure(c) = &m.args[0] {
                    if c.inputs.len() != 1 {
                        return None;
                    }
                    let var = match &c.inputs[0] {
                        syn::Pat::Ident(i) => i.ident.to_string(),
                        _ => return None,
                    };
                    let body = iter_expr(&c.body, &var)?;
                    return Some(json!({"flat_map": [f, body]}));
                }
                return None;
            }
            _ => {
                // root.method()
                if m.args.is_empty() && expr_path(&m.receiver) == Some(vec![root.to_string()]) {
                    return Some(json!({"call": name}));
                }
                return None;
            }
        }
    }
    None
}

fn chain_all(mut v: Vec<Value>) -> Value {
    if v.is_empty() {
        return json!({"chain_nil": true});
    }
    let mut acc = v.remove(0);
    for x in v {
        acc = json!({"chain": [acc, x]});
    }
    acc
}

/// statements of an `assemble_into(&self, result)` body
fn assemble_body(block: &syn::Block, elem_is_inst: &dyn Fn(&str) -> Option<bool>) -> Option<(Vec<Value>, Vec<String>)> {
    let mut parts = vec![];
    let mut order = vec![];
    for st in &block.stmts {
        let e = match st {
            syn::Stmt::Expr(e, _) => e,
            _ => return None,
        };
        match e {
            // if let Some(ref x) = self.F { x.assemble_into(result); }
            syn::Expr::If(i) if i.else_branch.is_none() => {
                if let syn::Expr::Let(l) = &*i.cond {
                    let f = root_field(&l.expr, "self")?;
                    let var = match &*l.pat {
                        syn::Pat::TupleStruct(ts) if last(&path_segments(&ts.path)) == "Some" && ts.elems.len() == 1 => match &ts.elems[0] {
                            syn::Pat::Ident(pi) => pi.ident.to_string(),
                            _ => return None,
                        },
                        _ => return None,
                    };
                    let body = tokens_string(&i.then_branch);
                    if body != format!("{{ {} . assemble_into ( result ) ; }} ", var) {
                        return None;
                    }
                    order.push(f.clone());
                    parts.push(json!({"field": f}));
                } else {
                    return None;
                }
            }
            // for x in ITER { x.assemble_into(result); }
            syn::Expr::ForLoop(fl) => {
                let var = match &*fl.pat {
                    syn::Pat::Ident(pi) => pi.ident.to_string(),
                    _ => return None,
                };
                let body = tokens_string(&fl.body);
                if body != format!("{{ {} . assemble_into ( result ) ; }} ", var) {
                    return None;
                }
                let it = iter_expr(&fl.expr, "self")?;
                if let Some(f) = it.get("field").and_then(|f| f.as_str()) {
                    order.push(f.to_string());
                    match elem_is_inst(f) {
                        Some(true) => parts.push(it.clone()),
                        Some(false) => parts.push(json!({"flat_map": [f, {"call": "assemble_into"}]})),
                        None => return None,
                    }
                } else {
                    order.push(tokens_string(&fl.expr).trim().to_string());
                    parts.push(it);
                }
            }
            _ => return None,
        }
    }
    Some((parts, order))
}

pub fn extract(cx: &mut Ctx) -> Value {
    const CFILE: &str = "rspirv/dr/constructs.rs";
    const AFILE: &str = "rspirv/binary/assemble.rs";
    let mut structs = serde_json::Map::new();
    let mut defs = vec![];
    if let Some(file) = cx.parse(CFILE) {
        for item in &file.items {
            match item {
                syn::Item::Struct(s) if ["Module", "Function", "Block", "ModuleHeader", "Instruction"].contains(&s.ident.to_string().as_str()) => {
                    let mut fields = vec![];
                    for f in s.fields.iter() {
                        fields.push(json!([f.ident.as_ref().map(|i| i.to_string()).unwrap_or_default(), tokens_string(&f.ty).trim()]));
                    }
                    structs.insert(s.ident.to_string(), Value::Array(fields));
                }
                syn::Item::Impl(imp) if imp.trait_.is_none() => {
                    let ty = tokens_string(&imp.self_ty).trim().to_string();
                    if !["Module", "Function", "Block"].contains(&ty.as_str()) {
                        continue;
                    }
                    for it in &imp.items {
                        if let syn::ImplItem::Fn(f) = it {
                            let name = f.sig.ident.to_string();
                            if !name.contains("inst_iter") {
                                continue;
                            }
                            let e = match f.block.stmts.as_slice() {
                                [syn::Stmt::Expr(e, None)] => e,
                                _ => {
                                    cx.fail(format!("{}: {}::{} body is not one expression", CFILE, ty, name));
                                    continue;
                                }
                            };
                            match iter_expr(e, "self") {
                                Some(v) => defs.push(json!({"scope": ty, "fn": name, "expr": v})),
                                None => cx.fail(format!("{}: {}::{} is not a recognised iterator chain", CFILE, ty, name)),
                            }
                        }
                    }
                }
                _ => {}
            }
        }
    }
    let elem_is_inst = |scope: &str| {
        let structs = structs.clone();
        let scope = scope.to_string();
        move |f: &str| -> Option<bool> {
            let fields = structs.get(&scope)?.as_array()?;
            for x in fields {
                if x[0] == f {
                    let t = x[1].as_str()?;
                    return Some(t.contains("Instruction"));
                }
            }
            None
        }
    };
    let mut header_first = Value::Null;
    if let Some(file) = cx.parse(AFILE) {
        for item in &file.items {
            if let syn::Item::Impl(imp) = item {
                let tr = imp.trait_.as_ref().map(|(_, p, _)| last(&path_segments(p))).unwrap_or_default();
                if tr != "Assemble" {
                    continue;
                }
                let ty = tokens_string(&imp.self_ty).trim().replace("dr :: ", "");
                if !["Module", "Function", "Block"].contains(&ty.as_str()) {
                    continue;
                }
                for it in &imp.items {
                    if let syn::ImplItem::Fn(f) = it {
                        if f.sig.ident != "assemble_into" {
                            continue;
                        }
                        let chk = elem_is_inst(&ty);
                        match assemble_body(&f.block, &chk) {
                            Some((mut parts, order)) => {
                                if ty == "Module" {
                                    // the header statement must come first; it contributes no instruction
                                    header_first = json!(order.first().map(|s| s == "header").unwrap_or(false) && order.iter().filter(|s| *s == "header").count() == 1);
                                    if order.first().map(|s| s == "header").unwrap_or(false) {
                                        parts.remove(0);
                                    }
                                }
                                defs.push(json!({"scope": ty, "fn": "assemble_into", "expr": chain_all(parts)}));
                            }
                            None => cx.fail(format!("{}: Assemble for {} body not recognised", AFILE, ty)),
                        }
                    }
                }
            }
        }
    }
    json!({"structs": structs, "defs": defs, "header_first": header_first})
}
