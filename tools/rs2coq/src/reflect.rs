//! grammar/reflect.rs: each predicate as a boolean expression tree over
//! opcode-name sets.
use crate::common::*;
use crate::Ctx;
use serde_json::{json, Value};
use syn::parse::{Parse, ParseStream};
use syn::Token;

const FILE: &str = "rspirv/grammar/reflect.rs";

struct MatchesArgs {
    scrut: syn::Expr,
    pat: syn::Pat,
}
impl Parse for MatchesArgs {
    fn parse(input: ParseStream) -> syn::Result<Self> {
        let scrut: syn::Expr = input.parse()?;
        input.parse::<Token![,]>()?;
        let pat = syn::Pat::parse_multi_with_leading_vert(input)?;
        if input.peek(Token![,]) {
            input.parse::<Token![,]>()?;
        }
        if !input.is_empty() {
            return Err(input.error("matches! with guard or trailing tokens"));
        }
        Ok(MatchesArgs { scrut, pat })
    }
}

fn op_name(p: &[String]) -> Option<String> {
    // spirv::Op::X  or Op::X
    if p.len() >= 2 && p[p.len() - 2] == "Op" {
        Some(p[p.len() - 1].clone())
    } else {
        None
    }
}

fn pat_names(p: &syn::Pat, out: &mut Vec<String>) -> bool {
    match p {
        syn::Pat::Or(o) => o.cases.iter().all(|c| pat_names(c, out)),
        syn::Pat::Paren(pp) => pat_names(&pp.pat, out),
        other => match pat_path(other).and_then(|v| op_name(&v)) {
            Some(n) => {
                out.push(n);
                true
            }
            None => false,
        },
    }
}

pub fn bool_expr(e: &syn::Expr, param: &str) -> Option<Value> {
    match e {
        syn::Expr::Paren(p) => bool_expr(&p.expr, param),
        syn::Expr::Macro(m) if last(&path_segments(&m.mac.path)) == "matches" => {
            let a = syn::parse2::<MatchesArgs>(m.mac.tokens.clone()).ok()?;
            if expr_path(&a.scrut)? != vec![param.to_string()] {
                return None;
            }
            let mut names = vec![];
            if !pat_names(&a.pat, &mut names) {
                return None;
            }
            Some(json!({"matches": names}))
        }
        syn::Expr::Binary(b) => match b.op {
            syn::BinOp::Or(_) => Some(json!({"or": [bool_expr(&b.left, param)?, bool_expr(&b.right, param)?]})),
            syn::BinOp::And(_) => Some(json!({"and": [bool_expr(&b.left, param)?, bool_expr(&b.right, param)?]})),
            syn::BinOp::Eq(_) => {
                if expr_path(&b.left)? != vec![param.to_string()] {
                    return None;
                }
                let n = op_name(&expr_path(&b.right)?)?;
                Some(json!({"matches": [n]}))
            }
            _ => None,
        },
        syn::Expr::Unary(u) if matches!(u.op, syn::UnOp::Not(_)) => {
            Some(json!({"not": bool_expr(&u.expr, param)?}))
        }
        syn::Expr::Call(c) => {
            let f = expr_path(&c.func)?;
            if c.args.len() != 1 || expr_path(&c.args[0])? != vec![param.to_string()] {
                return None;
            }
            Some(json!({"call": last(&f)}))
        }
        _ => None,
    }
}

pub fn extract(cx: &mut Ctx) -> Value {
    let file = match cx.parse(FILE) {
        Some(f) => f,
        None => return Value::Null,
    };
    let mut fns = vec![];
    for item in &file.items {
        match item {
            syn::Item::Fn(f) => {
                let name = f.sig.ident.to_string();
                // fn name(opcode: spirv::Op) -> bool
                let sig = tokens_string(&f.sig);
                let want = format!("fn {} ( opcode : spirv :: Op ) -> bool ", name);
                if sig != want {
                    cx.fail(format!("{}: fn {} signature `{}`", FILE, name, sig));
                    continue;
                }
                let e = match f.block.stmts.as_slice() {
                    [syn::Stmt::Expr(e, None)] => e,
                    _ => {
                        cx.fail(format!("{}: fn {} body is not one expression", FILE, name));
                        continue;
                    }
                };
                match bool_expr(e, "opcode") {
                    Some(v) => fns.push(json!({"name": name, "expr": v})),
                    None => cx.fail(format!("{}: fn {} body not a recognised predicate", FILE, name)),
                }
            }
            syn::Item::Use(_) => {}
            other => cx.fail(format!(
                "{}: unexpected item `{}`",
                FILE,
                tokens_string(other).chars().take(50).collect::<String>()
            )),
        }
    }
    json!({"fns": fns})
}
