//! Operand-level generated code:
//!  * binary/autogen_decode_operand.rs : typed decoder requests
//!  * binary/autogen_parse_operand.rs  : parse_operand arms + *_arguments tables
//!  * binary/assemble.rs               : `impl Assemble for dr::Operand` arms
//!  * dr/autogen_operand.rs            : Operand variants (+ reflection, see reflect_operand)
use crate::common::*;
use crate::Ctx;
use serde_json::{json, Value};

fn strip_trailing_commas(s: &str) -> String {
    s.replace(", ) ", ") ").replace(", ] ", "] ")
}

fn impl_fns<'a>(file: &'a syn::File, ty: &str) -> Vec<&'a syn::ImplItemFn> {
    let mut v = vec![];
    for item in &file.items {
        if let syn::Item::Impl(imp) = item {
            let t = tokens_string(&imp.self_ty);
            if imp.trait_.is_none() && t.trim().starts_with(ty) {
                for it in &imp.items {
                    if let syn::ImplItem::Fn(f) = it {
                        v.push(f);
                    }
                }
            }
        }
    }
    v
}

// ---------------------------------------------------------------- decode
fn decode_methods(cx: &mut Ctx) -> Value {
    const FILE: &str = "rspirv/binary/autogen_decode_operand.rs";
    let file = match cx.parse(FILE) {
        Some(f) => f,
        None => return Value::Null,
    };
    let mut out = vec![];
    for f in impl_fns(&file, "Decoder") {
        let name = f.sig.ident.to_string();
        let ret = match &f.sig.output {
            syn::ReturnType::Type(_, t) => tokens_string(t),
            _ => String::new(),
        };
        // Result < spirv :: T >
        let ty = ret
            .trim()
            .strip_prefix("Result < spirv :: ")
            .and_then(|r| r.strip_suffix(" >"))
            .map(|s| s.to_string());
        let ty = match ty {
            Some(t) => t,
            None => {
                cx.fail(format!("{}: fn {} return type `{}`", FILE, name, ret));
                continue;
            }
        };
        let body = strip_trailing_commas(&tokens_string(&f.block));
        let mut found = None;
        for conv in ["from_bits", "from_u32"] {
            let want = format!(
                "{{ if let Ok ( word ) = self . word ( ) {{ spirv :: {ty} :: {conv} ( word ) . ok_or ( Error :: {ty}Unknown ( self . offset - WORD_NUM_BYTES , word ) ) }} else {{ Err ( Error :: StreamExpected ( self . offset ) ) }} }} ",
                ty = ty,
                conv = conv
            );
            if body == want {
                found = Some(conv);
            }
        }
        match found {
            Some(conv) => out.push(json!({"name": name, "type": ty, "conv": conv, "err": format!("{}Unknown", ty)})),
            None => {
                cx.fail(format!("{}: fn {} body does not match the decode template", FILE, name));
                // still listed (by signature) so that the harness exercises it
                out.push(json!({"name": name, "type": ty, "conv": Value::Null, "err": format!("{}Unknown", ty)}));
            }
        }
    }
    Value::Array(out)
}

// ---------------------------------------------------------------- parse
/// `dr::Operand::V(self.decoder.m()?)` -> (V, m)
fn operand_ctor(e: &syn::Expr) -> Option<(String, String)> {
    if let syn::Expr::Call(c) = e {
        let p = expr_path(&c.func)?;
        if p.len() < 2 || p[p.len() - 2] != "Operand" || c.args.len() != 1 {
            return None;
        }
        let variant = last(&p);
        if let syn::Expr::Try(t) = &c.args[0] {
            if let syn::Expr::MethodCall(m) = &*t.expr {
                if m.args.is_empty() && tokens_string(&m.receiver) == "self . decoder " {
                    return Some((variant, m.method.to_string()));
                }
            }
        }
    }
    None
}

fn vec_macro_elems(e: &syn::Expr) -> Option<Vec<syn::Expr>> {
    let e = unwrap_block(e);
    if let syn::Expr::Macro(m) = e {
        if last(&path_segments(&m.mac.path)) == "vec" {
            let parser = syn::punctuated::Punctuated::<syn::Expr, syn::Token![,]>::parse_terminated;
            let p = syn::parse::Parser::parse2(parser, m.mac.tokens.clone()).ok()?;
            return Some(p.into_iter().collect());
        }
    }
    None
}

fn unwrap_block(e: &syn::Expr) -> &syn::Expr {
    if let syn::Expr::Block(b) = e {
        if b.label.is_none() && b.attrs.is_empty() {
            if let [syn::Stmt::Expr(inner, None)] = b.block.stmts.as_slice() {
                return unwrap_block(inner);
            }
        }
    }
    e
}

fn operand_vec(e: &syn::Expr) -> Option<Vec<(String, String)>> {
    let elems = vec_macro_elems(e)?;
    elems.iter().map(operand_ctor).collect()
}

fn parse_arms(cx: &mut Ctx, file: &syn::File) -> Value {
    const FILE: &str = "rspirv/binary/autogen_parse_operand.rs";
    let fns = impl_fns(file, "Parser");
    let mut arms_out = vec![];
    let mut args_out = vec![];
    for f in fns {
        let name = f.sig.ident.to_string();
        if name == "parse_operand" {
            let sig = tokens_string(&f.sig);
            if sig != "fn parse_operand ( & mut self , kind : GOpKind ) -> Result < Vec < dr :: Operand > > " {
                cx.fail(format!("{}: parse_operand signature `{}`", FILE, sig));
                continue;
            }
            let m = match f.block.stmts.as_slice() {
                [syn::Stmt::Expr(syn::Expr::Call(c), None)]
                    if expr_path(&c.func) == Some(vec!["Ok".to_string()]) && c.args.len() == 1 =>
                {
                    match &c.args[0] {
                        syn::Expr::Match(m) if expr_path(&m.expr) == Some(vec!["kind".to_string()]) => m,
                        _ => {
                            cx.fail(format!("{}: parse_operand body not Ok(match kind)", FILE));
                            continue;
                        }
                    }
                }
                _ => {
                    cx.fail(format!("{}: parse_operand body shape", FILE));
                    continue;
                }
            };
            for arm in &m.arms {
                let kind = match pat_path(&arm.pat) {
                    Some(p) if p.len() == 2 && p[0] == "GOpKind" && arm.guard.is_none() => p[1].clone(),
                    _ => {
                        cx.fail(format!("{}: parse_operand arm pattern `{}`", FILE, tokens_string(&arm.pat)));
                        continue;
                    }
                };
                let body = unwrap_block(&arm.body);
                if tokens_string(body) == "panic ! ( ) " {
                    arms_out.push(json!({"kind": kind, "panic": true}));
                    continue;
                }
                if let Some(v) = operand_vec(body) {
                    arms_out.push(json!({"kind": kind, "ops": v.iter().map(|(a,b)| json!([a,b])).collect::<Vec<_>>()}));
                    continue;
                }
                // parameterised: { let val = self.decoder.m()?; let mut ops = vec![dr::Operand::V(val)]; ops.append(&mut self.parse_X_arguments(val)?); ops }
                let txt = strip_trailing_commas(&tokens_string(&arm.body));
                let mut ok = false;
                if let syn::Expr::Block(b) = &*arm.body {
                    if let [syn::Stmt::Local(l1), syn::Stmt::Local(_l2), syn::Stmt::Expr(_e3, Some(_)), syn::Stmt::Expr(_e4, None)] =
                        b.block.stmts.as_slice()
                    {
                        // extract method m from l1
                        if let Some(init) = &l1.init {
                            if let syn::Expr::Try(t) = &*init.expr {
                                if let syn::Expr::MethodCall(mc) = &*t.expr {
                                    let method = mc.method.to_string();
                                    // find variant and args fn by template comparison
                                    for argsfn_candidate in txt.split_whitespace() {
                                        if argsfn_candidate.starts_with("parse_") && argsfn_candidate.ends_with("_arguments") {
                                            let want = format!(
                                                "{{ let val = self . decoder . {m} ( ) ? ; let mut ops = vec ! [ dr :: Operand :: {k} ( val ) ] ; ops . append ( & mut self . {a} ( val ) ? ) ; ops }} ",
                                                m = method, k = kind, a = argsfn_candidate
                                            );
                                            if txt == want {
                                                arms_out.push(json!({"kind": kind, "ops": [[kind, method]], "args_fn": argsfn_candidate}));
                                                ok = true;
                                            }
                                        }
                                    }
                                }
                            }
                        }
                    }
                }
                if !ok {
                    cx.fail(format!("{}: parse_operand arm {} not a recognised shape", FILE, kind));
                }
            }
        } else if name.starts_with("parse_") && name.ends_with("_arguments") {
            // parameter: (name: spirv::T)
            let (pname, pty) = match f.sig.inputs.iter().nth(1) {
                Some(syn::FnArg::Typed(t)) => (
                    tokens_string(&t.pat).trim().to_string(),
                    tokens_string(&t.ty).trim().to_string(),
                ),
                _ => {
                    cx.fail(format!("{}: {} parameter", FILE, name));
                    continue;
                }
            };
            let ty = match pty.strip_prefix("spirv :: ") {
                Some(t) => t.to_string(),
                None => {
                    cx.fail(format!("{}: {} parameter type {}", FILE, name, pty));
                    continue;
                }
            };
            let stmts = &f.block.stmts;
            let mut rows = vec![];
            let mut form = "";
            let mut good = true;
            if let [syn::Stmt::Expr(syn::Expr::Call(c), None)] = stmts.as_slice() {
                // Ok(match x { spirv::T::V => vec![..], _ => vec![] })
                form = "enum";
                if let (Some(p), Some(syn::Expr::Match(m))) = (expr_path(&c.func), c.args.first()) {
                    if p != vec!["Ok".to_string()] || expr_path(&m.expr) != Some(vec![pname.clone()]) {
                        good = false;
                    }
                    let n = m.arms.len();
                    for (k, arm) in m.arms.iter().enumerate() {
                        if let syn::Pat::Wild(_) = arm.pat {
                            if k != n - 1 || tokens_string(unwrap_block(&arm.body)) != "vec ! [ ] " {
                                good = false;
                            }
                            continue;
                        }
                        let v = match pat_path(&arm.pat) {
                            Some(p) if p.len() == 3 && p[0] == "spirv" && p[1] == ty && arm.guard.is_none() => p[2].clone(),
                            _ => {
                                good = false;
                                continue;
                            }
                        };
                        match operand_vec(&arm.body) {
                            Some(ops) => rows.push(json!({"value": v, "ops": ops.iter().map(|(a,b)| json!([a,b])).collect::<Vec<_>>()})),
                            None => good = false,
                        }
                    }
                } else {
                    good = false;
                }
            } else {
                // let mut params = vec![]; if x.contains(spirv::T::F) { params.append(&mut vec![..]); } ... Ok(params)
                form = "mask";
                let n = stmts.len();
                for (k, st) in stmts.iter().enumerate() {
                    if k == 0 {
                        if tokens_string(st) != "let mut params = vec ! [ ] ; " {
                            good = false;
                        }
                        continue;
                    }
                    if k == n - 1 {
                        if tokens_string(st) != "Ok ( params ) " {
                            good = false;
                        }
                        continue;
                    }
                    let mut row_ok = false;
                    if let syn::Stmt::Expr(syn::Expr::If(i), _) = st {
                        if i.else_branch.is_none() {
                            if let syn::Expr::MethodCall(mc) = &*i.cond {
                                if mc.method == "contains"
                                    && expr_path(&mc.receiver) == Some(vec![pname.clone()])
                                    && mc.args.len() == 1
                                {
                                    if let Some(fp) = expr_path(&mc.args[0]) {
                                        if fp.len() == 3 && fp[0] == "spirv" && fp[1] == ty {
                                            if let [syn::Stmt::Expr(syn::Expr::MethodCall(ap), Some(_))] = i.then_branch.stmts.as_slice() {
                                                if ap.method == "append" && expr_path(&ap.receiver) == Some(vec!["params".to_string()]) && ap.args.len() == 1 {
                                                    if let syn::Expr::Reference(r) = &ap.args[0] {
                                                        if r.mutability.is_some() {
                                                            if let Some(ops) = operand_vec(&r.expr) {
                                                                rows.push(json!({"value": fp[2], "ops": ops.iter().map(|(a,b)| json!([a,b])).collect::<Vec<_>>()}));
                                                                row_ok = true;
                                                            }
                                                        }
                                                    }
                                                }
                                            }
                                        }
                                    }
                                }
                            }
                        }
                    }
                    if !row_ok {
                        good = false;
                    }
                }
            }
            if good {
                args_out.push(json!({"fn": name, "type": ty, "form": form, "rows": rows}));
            } else {
                cx.fail(format!("{}: {} is not a recognised arguments table", FILE, name));
            }
        } else {
            cx.fail(format!("{}: unexpected fn {}", FILE, name));
        }
    }
    json!({"arms": arms_out, "args": args_out})
}

// ---------------------------------------------------------------- assemble arms
fn assemble_arms(cx: &mut Ctx) -> Value {
    const FILE: &str = "rspirv/binary/assemble.rs";
    let file = match cx.parse(FILE) {
        Some(f) => f,
        None => return Value::Null,
    };
    let mut arms_out = vec![];
    let mut others = serde_json::Map::new();
    for item in &file.items {
        match item {
            syn::Item::Impl(imp) => {
                let tr = imp.trait_.as_ref().map(|(_, p, _)| last(&path_segments(p))).unwrap_or_default();
                let ty = tokens_string(&imp.self_ty).trim().to_string();
                if tr != "Assemble" {
                    continue;
                }
                for it in &imp.items {
                    if let syn::ImplItem::Fn(f) = it {
                        if f.sig.ident != "assemble_into" {
                            cx.fail(format!("{}: impl Assemble for {} extra fn {}", FILE, ty, f.sig.ident));
                            continue;
                        }
                        if ty == "dr :: Operand" {
                            let m = match f.block.stmts.as_slice() {
                                [syn::Stmt::Expr(syn::Expr::Match(m), _)] if tokens_string(&m.expr) == "* self " => m,
                                _ => {
                                    cx.fail(format!("{}: Operand::assemble_into is not `match *self`", FILE));
                                    continue;
                                }
                            };
                            for arm in &m.arms {
                                let body = strip_trailing_commas(&tokens_string(&arm.body));
                                let enc = match body.as_str() {
                                    "result . push ( v . bits ( ) ) " => "bits",
                                    "result . push ( v as u32 ) " => "as_u32",
                                    "result . push ( v ) " => "word",
                                    "result . extend ( [ v as u32 , ( v >> 32 ) as u32 ] ) " => "bit64",
                                    "assemble_str ( v , result ) " => "string",
                                    _ => {
                                        cx.fail(format!("{}: Operand arm body `{}`", FILE, body));
                                        continue;
                                    }
                                };
                                let mut pats = vec![];
                                fn collect(p: &syn::Pat, out: &mut Vec<String>) -> bool {
                                    match p {
                                        syn::Pat::Or(o) => o.cases.iter().all(|c| collect(c, out)),
                                        syn::Pat::TupleStruct(ts) => {
                                            let segs = path_segments(&ts.path);
                                            if segs.len() == 2 && segs[0] == "Self" && ts.elems.len() == 1 {
                                                let inner = tokens_string(&ts.elems[0]);
                                                if inner == "v " || inner == "ref v " {
                                                    out.push(segs[1].clone());
                                                    return true;
                                                }
                                            }
                                            false
                                        }
                                        _ => false,
                                    }
                                }
                                if arm.guard.is_some() || !collect(&arm.pat, &mut pats) {
                                    cx.fail(format!("{}: Operand arm pattern `{}`", FILE, tokens_string(&arm.pat)));
                                    continue;
                                }
                                for p in pats {
                                    arms_out.push(json!([p, enc]));
                                }
                            }
                        } else {
                            others.insert(format!("assemble_into:{}", ty), json!(tokens_string(&f.block)));
                        }
                    }
                }
            }
            syn::Item::Fn(f) => {
                others.insert(format!("fn:{}", f.sig.ident), json!(tokens_string(&f.block)));
            }
            syn::Item::Trait(t) => {
                others.insert(format!("trait:{}", t.ident), json!(tokens_string(t)));
            }
            _ => {}
        }
    }
    json!({"operand_arms": arms_out, "bodies": others})
}

// ---------------------------------------------------------------- Operand enum
fn operand_enum(cx: &mut Ctx) -> Value {
    const FILE: &str = "rspirv/dr/autogen_operand.rs";
    let file = match cx.parse(FILE) {
        Some(f) => f,
        None => return Value::Null,
    };
    let mut variants = vec![];
    for item in &file.items {
        if let syn::Item::Enum(e) = item {
            if e.ident == "Operand" {
                for v in &e.variants {
                    let ty = match &v.fields {
                        syn::Fields::Unnamed(u) if u.unnamed.len() == 1 => tokens_string(&u.unnamed[0].ty).trim().to_string(),
                        _ => {
                            cx.fail(format!("{}: Operand::{} shape", FILE, v.ident));
                            continue;
                        }
                    };
                    variants.push(json!([v.ident.to_string(), ty]));
                }
            }
        }
    }
    if variants.is_empty() {
        cx.fail(format!("{}: enum Operand not found", FILE));
    }
    Value::Array(variants)
}

pub fn extract(cx: &mut Ctx) -> Value {
    let decode = decode_methods(cx);
    let parse = match cx.parse("rspirv/binary/autogen_parse_operand.rs") {
        Some(f) => parse_arms(cx, &f),
        None => Value::Null,
    };
    let asm = assemble_arms(cx);
    let variants = operand_enum(cx);
    json!({"decode": decode, "parse": parse, "assemble": asm, "variants": variants})
}
