//! Builder method descriptors: the body of every generated Builder method is a
//! straight-line program over `inst`; each statement must match one template.
use crate::common::*;
use serde_json::{json, Value};

fn strip_commas(s: &str) -> String {
    s.replace(", ) ", ") ").replace(", ] ", "] ")
}

/// `dr :: Operand :: K ( x )` / `dr :: Operand :: K ( x . into ( ) )`  -> (K, x)
fn operand_ctor(s: &str) -> Option<(String, String)> {
    let s = s.trim();
    let rest = s.strip_prefix("dr :: Operand :: ")?;
    let (k, arg) = rest.split_once(" ( ")?;
    let arg = arg.strip_suffix(" )")?.trim();
    let arg = arg.strip_suffix(". into ( )").map(|a| a.trim()).unwrap_or(arg);
    if arg.contains(' ') && !arg.starts_with("v .") {
        return None;
    }
    Some((k.trim().to_string(), arg.to_string()))
}

fn split_top(s: &str) -> Vec<String> {
    // split "a , b ( c , d ) , e" at top-level commas
    let mut out = vec![];
    let mut depth = 0i32;
    let mut cur = String::new();
    for tok in s.split_whitespace() {
        match tok {
            "(" | "[" | "{" => depth += 1,
            ")" | "]" | "}" => depth -= 1,
            _ => {}
        }
        if tok == "," && depth == 0 {
            out.push(cur.trim().to_string());
            cur = String::new();
        } else {
            cur.push_str(tok);
            cur.push(' ');
        }
    }
    if !cur.trim().is_empty() {
        out.push(cur.trim().to_string());
    }
    out
}

pub fn describe(f: &syn::ImplItemFn) -> Result<Value, String> {
    // wrapper: `self.NAME_id(None, a, b, ...)`
    if f.block.stmts.len() == 1 {
        let s = strip_commas(&tokens_string(&f.block.stmts[0]));
        if let Some(rest) = s.trim().strip_prefix("self . ") {
            if let Some((name, args)) = rest.split_once(" ( None") {
                if let Some(a) = args.trim().strip_suffix(")") {
                    let a = a.trim().trim_start_matches(',').trim();
                    let list: Vec<String> = if a.is_empty() { vec![] } else { split_top(a) };
                    if name.ends_with("_id") && list.iter().all(|x| !x.contains(' ')) {
                        return Ok(json!({"delegate": name.trim(), "args": list}));
                    }
                }
            }
        }
    }
    let mut opcode: Option<String> = None;
    let mut rt = Value::Null;
    let mut rid = Value::Null;
    let mut slots: Vec<Value> = vec![];
    let mut sink = Value::Null;
    let mut ret = Value::Null;
    let mut id_binding: Option<String> = None; // var holding the id: "_id" or "id"
    let stmts = &f.block.stmts;
    let n = stmts.len();
    let mut i = 0;
    while i < n {
        let raw = strip_commas(&tokens_string(&stmts[i]));
        let s = raw.trim().to_string();
        let s = s.strip_prefix("# [ allow ( unused_mut ) ] ").map(|x| x.to_string()).unwrap_or(s);
        if s == "let _id = result_id . unwrap_or_else ( | | self . id ( ) ) ;" {
            id_binding = Some("_id".into());
            rid = json!({"mode": "opt_param_else_fresh", "param": "result_id"});
        } else if s == "let id = self . id ( ) ;" {
            id_binding = Some("id".into());
            rid = json!({"mode": "fresh"});
        } else if let Some(rest) = s.strip_prefix("let mut inst = dr :: Instruction :: new ( spirv :: Op :: ").or_else(|| s.strip_prefix("let inst = dr :: Instruction :: new ( spirv :: Op :: ")) {
            let rest = rest.strip_suffix(") ;").ok_or("Instruction::new tail")?;
            let parts = split_top(rest);
            if parts.len() != 4 {
                return Err(format!("Instruction::new arity {}", parts.len()));
            }
            opcode = Some(parts[0].clone());
            rt = match parts[1].as_str() {
                "None" => json!({"mode": "none"}),
                "Some ( result_type )" => json!({"mode": "param", "param": "result_type"}),
                other => return Err(format!("result type `{}`", other)),
            };
            match parts[2].as_str() {
                "None" => rid = json!({"mode": "none"}),
                "Some ( _id )" if id_binding.as_deref() == Some("_id") => {}
                "Some ( id )" if id_binding.as_deref() == Some("id") => {}
                "result_id" => rid = json!({"mode": "opt_param", "param": "result_id"}),
                other => return Err(format!("result id `{}`", other)),
            }
            let v = parts[3].strip_prefix("vec ! [").and_then(|x| x.strip_suffix("]")).ok_or("init vec")?;
            for el in split_top(v) {
                let (k, p) = operand_ctor(&el).ok_or(format!("init operand `{}`", el))?;
                slots.push(json!({"q": "one", "kind": k, "param": p}));
            }
        } else if let Some(rest) = s.strip_prefix("if let Some ( v ) = ") {
            // if let Some(v) = P { inst.operands.push(dr::Operand::K(v)); }
            // or the dedup head: if let Some(result_id) = result_id { ... }
            let (p, body) = rest.split_once(" { ").ok_or("if-let shape")?;
            let want_tail = " ; }";
            let body = body.strip_suffix(want_tail).ok_or(format!("optional push body `{}`", body))?;
            let inner = body.strip_prefix("inst . operands . push ( ").and_then(|x| x.strip_suffix(" )")).ok_or("optional push")?;
            let (k, a) = operand_ctor(inner).ok_or("optional operand ctor")?;
            if a != "v" {
                return Err("optional push of non-v".into());
            }
            slots.push(json!({"q": "opt", "kind": k, "param": p.trim()}));
        } else if s.starts_with("if let Some ( result_id ) = result_id {") {
            let want = "if let Some ( result_id ) = result_id { self . module . types_global_values . push ( inst ) ; result_id } else if let Some ( id ) = self . dedup_insert_type ( & inst ) { id } else { let new_id = self . id ( ) ; inst . result_id = Some ( new_id ) ; self . module . types_global_values . push ( inst ) ; new_id }";
            if s != want {
                return Err("dedup branch differs from the template".into());
            }
            sink = json!({"sink": "dedup_type"});
            ret = json!("id");
        } else if let Some(rest) = s.strip_prefix("inst . operands . extend ( ") {
            let inner = rest.strip_suffix(" ) ;").ok_or("extend tail")?;
            if let Some(p) = inner.strip_suffix(" . into_iter ( ) . map ( dr :: Operand :: IdRef )") {
                slots.push(json!({"q": "many", "kind": "IdRef", "param": p.trim()}));
            } else if let Some(p) = inner.strip_suffix(" . into_iter ( ) . map ( dr :: Operand :: LiteralBit32 )") {
                slots.push(json!({"q": "many", "kind": "LiteralBit32", "param": p.trim()}));
            } else if !inner.contains(' ') {
                slots.push(json!({"q": "extras", "param": inner}));
            } else {
                return Err(format!("extend `{}`", inner));
            }
        } else if let Some(rest) = s.strip_prefix("for v in ") {
            let (p, body) = rest.split_once(" { ").ok_or("for shape")?;
            let body = body.strip_suffix(" }").ok_or("for tail")?;
            let pushes: Vec<&str> = body.split(" ; ").map(|x| x.trim().trim_end_matches(" ;")).filter(|x| !x.is_empty()).collect();
            if pushes.len() != 2 {
                return Err("pair loop arity".into());
            }
            let mut ks = vec![];
            for (j, pu) in pushes.iter().enumerate() {
                let inner = pu.strip_prefix("inst . operands . push ( ").and_then(|x| x.strip_suffix(" )")).ok_or("pair push")?;
                let want_arg = format!("v . {}", j);
                if inner == want_arg {
                    ks.push("Operand".to_string());
                } else {
                    let (k, a) = operand_ctor(inner).ok_or(format!("pair ctor `{}`", inner))?;
                    if a != want_arg {
                        return Err("pair component order".into());
                    }
                    ks.push(k);
                }
            }
            slots.push(json!({"q": "pairs", "kinds": ks, "param": p.trim()}));
        } else if s == "self . insert_into_block ( InsertPoint :: End , inst ) ? ;" {
            sink = json!({"sink": "block", "point": "end"});
        } else if s == "self . insert_into_block ( insert_point , inst ) ? ;" {
            sink = json!({"sink": "block", "point": "param"});
        } else if s == "self . end_block ( inst )" {
            sink = json!({"sink": "end_block", "point": "end"});
            ret = json!("result");
        } else if s == "self . insert_end_block ( insert_point , inst )" {
            sink = json!({"sink": "end_block", "point": "param"});
            ret = json!("result");
        } else if let Some(sec) = s.strip_prefix("self . module . ").and_then(|x| x.strip_suffix(" . push ( inst ) ;")) {
            sink = json!({"sink": "section", "section": sec});
        } else if s == "Ok ( _id )" || s == "Ok ( ( ) )" {
            ret = json!(if s == "Ok ( _id )" { "ok_id" } else { "ok_unit" });
        } else if s == "id" || s == "_id" {
            ret = json!("id");
        } else {
            return Err(format!("statement `{}`", s.chars().take(120).collect::<String>()));
        }
        i += 1;
    }
    let opcode = opcode.ok_or("no Instruction::new")?;
    if sink.is_null() {
        return Err("no sink".into());
    }
    Ok(json!({"opcode": opcode, "rtype": rt, "rid": rid, "slots": slots, "sink": sink, "ret": ret}))
}
