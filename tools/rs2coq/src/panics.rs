//! Panic-site audit: every syntactic site that can panic in the files C04/C20
//! anchor (explicit panic-family macros, unwrap/expect, indexing/slicing,
//! integer arithmetic in the decoder/parser), with the enclosing function.
use crate::common::*;
use crate::Ctx;
use serde_json::{json, Value};
use syn::visit::Visit;

const FILES: &[(&str, bool)] = &[
    ("rspirv/binary/decoder.rs", true),
    ("rspirv/binary/parser.rs", true),
    ("rspirv/binary/autogen_parse_operand.rs", false),
    ("rspirv/binary/autogen_decode_operand.rs", true),
    ("rspirv/binary/tracker.rs", false),
    ("rspirv/binary/assemble.rs", true),
    ("rspirv/binary/disassemble.rs", false),
    ("rspirv/binary/autogen_disas_operand.rs", false),
    ("rspirv/dr/loader.rs", false),
    ("rspirv/dr/constructs.rs", false),
    ("dis/main.rs", false),
];

struct V<'a> {
    file: &'a str,
    arith: bool,
    func: Vec<String>,
    out: Vec<Value>,
}

impl<'a> V<'a> {
    fn site(&mut self, kind: &str, text: String) {
        let f = self.func.last().cloned().unwrap_or_default();
        let t: String = text.chars().take(110).collect();
        self.out.push(json!([self.file, f, kind, t.trim()]));
    }
}

impl<'ast, 'a> Visit<'ast> for V<'a> {
    fn visit_item_mod(&mut self, m: &'ast syn::ItemMod) {
        if m.attrs.iter().any(|a| tokens_string(a).contains("cfg ( test )")) {
            return;
        }
        syn::visit::visit_item_mod(self, m);
    }
    fn visit_item_fn(&mut self, f: &'ast syn::ItemFn) {
        self.func.push(f.sig.ident.to_string());
        syn::visit::visit_item_fn(self, f);
        self.func.pop();
    }
    fn visit_impl_item_fn(&mut self, f: &'ast syn::ImplItemFn) {
        self.func.push(f.sig.ident.to_string());
        syn::visit::visit_impl_item_fn(self, f);
        self.func.pop();
    }
    fn visit_macro(&mut self, m: &'ast syn::Macro) {
        let name = last(&path_segments(&m.path));
        if ["panic", "unreachable", "todo", "unimplemented", "assert", "assert_eq", "assert_ne", "debug_assert", "debug_assert_eq"].contains(&name.as_str()) {
            self.site("macro", format!("{} ! ( {} )", name, norm_tokens(m.tokens.clone())));
        }
        // look inside vec!/format!/push!/write! arguments for nested sites
        if let Ok(args) = syn::parse::Parser::parse2(
            syn::punctuated::Punctuated::<syn::Expr, syn::Token![,]>::parse_terminated,
            m.tokens.clone(),
        ) {
            for a in args.iter() {
                self.visit_expr(a);
            }
        }
    }
    fn visit_expr_method_call(&mut self, m: &'ast syn::ExprMethodCall) {
        let n = m.method.to_string();
        if n == "unwrap" || n == "expect" {
            self.site("unwrap", tokens_string(m));
        }
        syn::visit::visit_expr_method_call(self, m);
    }
    fn visit_expr_index(&mut self, i: &'ast syn::ExprIndex) {
        self.site("index", tokens_string(i));
        syn::visit::visit_expr_index(self, i);
    }
    fn visit_expr_binary(&mut self, b: &'ast syn::ExprBinary) {
        if self.arith {
            let op = match b.op {
                syn::BinOp::Add(_) | syn::BinOp::AddAssign(_) => Some("+"),
                syn::BinOp::Sub(_) | syn::BinOp::SubAssign(_) => Some("-"),
                syn::BinOp::Mul(_) | syn::BinOp::MulAssign(_) => Some("*"),
                syn::BinOp::Shl(_) => Some("<<"),
                _ => None,
            };
            if op.is_some() {
                self.site("arith", tokens_string(b));
            }
        }
        syn::visit::visit_expr_binary(self, b);
    }
}

pub fn extract(cx: &mut Ctx) -> Value {
    let mut all = vec![];
    for (rel, arith) in FILES {
        if let Some(file) = cx.parse(rel) {
            let mut v = V { file: rel, arith: *arith, func: vec![], out: vec![] };
            v.visit_file(&file);
            all.extend(v.out);
        }
    }
    // identical sites in generated code are counted, not repeated
    let mut counted: Vec<(Value, usize)> = vec![];
    for s in all {
        if let Some(e) = counted.iter_mut().find(|(x, _)| *x == s) {
            e.1 += 1;
        } else {
            counted.push((s, 1));
        }
    }
    Value::Array(counted.into_iter().map(|(s, n)| json!({"site": s, "count": n})).collect())
}
