//! dr/loader.rs: the arms of `Loader::consume_instruction` and `finalize`.
use crate::common::*;
use crate::reflect::bool_expr;
use crate::Ctx;
use serde_json::{json, Value};

const FILE: &str = "rspirv/dr/loader.rs";

fn op_names(p: &syn::Pat, out: &mut Vec<String>) -> bool {
    match p {
        syn::Pat::Or(o) => o.cases.iter().all(|c| op_names(c, out)),
        other => match pat_path(other) {
            Some(v) if v.len() >= 2 && v[v.len() - 2] == "Op" => {
                out.push(last(&v));
                true
            }
            _ => false,
        },
    }
}

/// `if_ret_err!(cond, Err)` -> (cond tokens, Err)
fn ret_err(st: &syn::Stmt) -> Option<(String, String)> {
    let mac = match st {
        syn::Stmt::Macro(m) => &m.mac,
        syn::Stmt::Expr(syn::Expr::Macro(m), _) => &m.mac,
        _ => return None,
    };
    if last(&path_segments(&mac.path)) != "if_ret_err" {
        return None;
    }
    let s = norm_tokens(mac.tokens.clone());
    let idx = s.rfind(", ")?;
    Some((s[..idx].trim().to_string(), s[idx + 2..].trim().to_string()))
}

fn body_parts(body: &syn::Expr) -> (Vec<(String, String)>, String) {
    let mut checks = vec![];
    let mut rest = vec![];
    match body {
        syn::Expr::Block(b) => {
            for st in &b.block.stmts {
                if let Some(c) = ret_err(st) {
                    if rest.is_empty() {
                        checks.push(c);
                        continue;
                    }
                }
                rest.push(tokens_string(st));
            }
        }
        other => rest.push(tokens_string(other)),
    }
    (checks, rest.join("").trim().to_string())
}

pub fn extract(cx: &mut Ctx) -> Value {
    let file = match cx.parse(FILE) {
        Some(f) => f,
        None => return Value::Null,
    };
    let mut arms = vec![];
    let mut finalize = Value::Null;
    let mut others = serde_json::Map::new();
    for item in &file.items {
        match item {
            syn::Item::Impl(imp) => {
                let is_consumer = imp.trait_.as_ref().map(|(_, p, _)| last(&path_segments(p)) == "Consumer").unwrap_or(false);
                for it in &imp.items {
                    if let syn::ImplItem::Fn(f) = it {
                        let name = f.sig.ident.to_string();
                        if is_consumer && name == "consume_instruction" {
                            // let opcode = inst.class.opcode; match opcode { arms } ParseAction::Continue
                            let stmts = &f.block.stmts;
                            let ok_shape = stmts.len() == 3
                                && tokens_string(&stmts[0]) == "let opcode = inst . class . opcode ; "
                                && tokens_string(&stmts[2]) == "ParseAction :: Continue ";
                            let m = match (&stmts.get(1), ok_shape) {
                                (Some(syn::Stmt::Expr(syn::Expr::Match(m), _)), true) if expr_path(&m.expr) == Some(vec!["opcode".to_string()]) => m,
                                _ => {
                                    cx.fail(format!("{}: consume_instruction is not `let opcode..; match opcode {{..}} Continue`", FILE));
                                    continue;
                                }
                            };
                            for arm in &m.arms {
                                let (checks, action) = body_parts(&arm.body);
                                let checks_j: Vec<Value> = checks.iter().map(|(c, e)| json!([c, e])).collect();
                                let mut pat = Value::Null;
                                let mut guard = Value::Null;
                                match &arm.pat {
                                    syn::Pat::Wild(_) => pat = json!({"any": true}),
                                    syn::Pat::Ident(pi) if pi.ident == "opcode" => {
                                        // opcode if <predicate expression>
                                        if let Some((_, g)) = &arm.guard {
                                            match bool_expr(g, "opcode") {
                                                Some(e) => pat = json!({"pred": e}),
                                                None => {}
                                            }
                                        }
                                    }
                                    p => {
                                        let mut names = vec![];
                                        if op_names(p, &mut names) {
                                            pat = json!({"ops": names});
                                            if let Some((_, g)) = &arm.guard {
                                                guard = json!(tokens_string(g).trim());
                                            }
                                        }
                                    }
                                }
                                if pat.is_null() {
                                    cx.fail(format!("{}: consume_instruction arm `{}` not recognised", FILE, tokens_string(&arm.pat)));
                                    continue;
                                }
                                arms.push(json!({"pat": pat, "guard": guard, "checks": checks_j, "action": action}));
                            }
                        } else if is_consumer && name == "finalize" {
                            let mut checks = vec![];
                            let mut rest = vec![];
                            for st in &f.block.stmts {
                                match ret_err(st) {
                                    Some((c, e)) if rest.is_empty() => checks.push(json!([c, e])),
                                    _ => rest.push(tokens_string(st)),
                                }
                            }
                            finalize = json!({"checks": checks, "action": rest.join("").trim()});
                        } else {
                            others.insert(
                                format!("{}{}", if is_consumer { "Consumer::" } else { "" }, name),
                                json!(tokens_string(&f.block)),
                            );
                        }
                    }
                }
            }
            syn::Item::Fn(f) => {
                others.insert(format!("fn:{}", f.sig.ident), json!(tokens_string(&f.block)));
            }
            syn::Item::Macro(m) => {
                if let Some(id) = &m.ident {
                    others.insert(format!("macro:{}", id), json!(norm_tokens(m.mac.tokens.clone())));
                }
            }
            _ => {}
        }
    }
    if arms.is_empty() {
        cx.fail(format!("{}: no consume_instruction arms found", FILE));
    }
    json!({"arms": arms, "finalize": finalize, "others": others})
}
