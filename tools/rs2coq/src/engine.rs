//! Hand-modelled engine code: token fingerprints of every function (drift
//! detection), plus the few constants the models take from the source.
use crate::common::*;
use crate::Ctx;
use serde_json::{json, Value};

const FILES: &[&str] = &[
    "rspirv/binary/decoder.rs",
    "rspirv/binary/parser.rs",
    "rspirv/binary/tracker.rs",
    "rspirv/binary/assemble.rs",
    "rspirv/binary/disassemble.rs",
    "rspirv/dr/loader.rs",
    "rspirv/dr/constructs.rs",
    "rspirv/dr/build/mod.rs",
    "rspirv/sr/storage.rs",
    "rspirv/lift/storage.rs",
    "rspirv/lift/mod.rs",
    "rspirv/utils/version.rs",
    "dis/main.rs",
];

fn walk_items(rel: &str, prefix: &str, items: &[syn::Item], out: &mut serde_json::Map<String, Value>) {
    for item in items {
        match item {
            syn::Item::Fn(f) => {
                out.insert(format!("{}::{}{}", rel, prefix, f.sig.ident), json!(fingerprint(f)));
            }
            syn::Item::Impl(imp) => {
                let ty = tokens_string(&imp.self_ty).replace(' ', "");
                let tr = imp
                    .trait_
                    .as_ref()
                    .map(|(_, p, _)| format!("<{}>", last(&path_segments(p))))
                    .unwrap_or_default();
                for it in &imp.items {
                    if let syn::ImplItem::Fn(f) = it {
                        out.insert(
                            format!("{}::{}{}{}::{}", rel, prefix, ty, tr, f.sig.ident),
                            json!(fingerprint(f)),
                        );
                    }
                }
            }
            syn::Item::Mod(m) => {
                let is_test = m.attrs.iter().any(|a| tokens_string(a).contains("cfg ( test )"));
                if !is_test {
                    if let Some((_, items)) = &m.content {
                        walk_items(rel, &format!("{}{}::", prefix, m.ident), items, out);
                    }
                }
            }
            syn::Item::Macro(m) => {
                if let Some(id) = &m.ident {
                    out.insert(format!("{}::{}macro:{}", rel, prefix, id), json!(fingerprint(m)));
                }
            }
            syn::Item::Trait(t) => {
                out.insert(format!("{}::{}trait:{}", rel, prefix, t.ident), json!(fingerprint(t)));
            }
            _ => {}
        }
    }
}

pub fn extract(cx: &mut Ctx) -> Value {
    let mut fps = serde_json::Map::new();
    let mut storage_index = Value::Null;
    for rel in FILES {
        if let Some(file) = cx.parse(rel) {
            walk_items(rel, "", &file.items, &mut fps);
            if *rel == "rspirv/sr/storage.rs" {
                for item in &file.items {
                    if let syn::Item::Type(t) = item {
                        if t.ident == "Index" {
                            storage_index = json!(tokens_string(&t.ty).trim());
                        }
                    }
                }
            }
        }
    }
    if storage_index.is_null() {
        cx.fail("rspirv/sr/storage.rs: `type Index` not found".to_string());
    }
    json!({"fingerprints": fps, "storage_index_type": storage_index})
}
